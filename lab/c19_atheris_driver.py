#!/venv/bin/python
"""
Coverage-guided campaign for C19 (thorough tier, started by checks/c19_fastpath_parsing.py, never registered on its own).

  c19_atheris_driver.py --repo DIR --out DIR --job N --kind K --corpus empty|literals --seconds S --seed N

libFuzzer (atheris) mutates a byte buffer; `hypothesis.fuzz_one_input` decodes the buffer with the *same* strategy the Hypothesis
search uses (gen/es_responses.cases), so every input the oracle sees is a well-formed case of the property's domain; coverage
feedback comes from the pure-Python ijson backend and esrally.driver.runner (both instrumented at import).
The oracle is checks.c19_fastpath_parsing.run_case.  A case on which an oracle clause fails (and that is not inside a known finding's
region) is written to <out>/case-<hash>.json; the parent check re-runs those files through its normal reporting path.
Statistics go to <out>/job-<N>.stats.json (Fuzz() never returns, so they are rewritten every few seconds).
`--corpus literals` seeds the corpus with the response literals of tests/driver/runner_test.py (as raw bytes: for the bridge they
are just non-trivial starting buffers) - the literals themselves are replayed as real cases by replays/C19/.
"""
import argparse
import ast
import json
import os
import sys
import time

ROOT = os.path.dirname(os.path.dirname(os.path.abspath(__file__)))


def literal_responses(repo):
    """response literals of the unit tests: JSON strings and dict displays that look like bulk / search responses"""
    path = os.path.join(repo, "tests", "driver", "runner_test.py")
    out = []
    try:
        tree = ast.parse(open(path, encoding="utf-8").read())
    except (OSError, SyntaxError):
        return out
    for node in ast.walk(tree):
        doc = None
        if isinstance(node, ast.Constant) and isinstance(node.value, str) and "{" in node.value:
            try:
                doc = json.loads(node.value)
            except ValueError:
                continue
        elif isinstance(node, ast.Dict):
            try:
                doc = ast.literal_eval(node)
            except (ValueError, TypeError, SyntaxError, MemoryError, RecursionError):
                continue
        if isinstance(doc, dict) and ({"took", "hits"} <= doc.keys() or {"items", "errors"} <= doc.keys()):
            try:
                out.append(json.dumps(doc, separators=(",", ":")).encode("utf-8"))
            except (TypeError, ValueError):
                continue
    return out


def main():
    ap = argparse.ArgumentParser()
    ap.add_argument("--repo", default="/repo")
    ap.add_argument("--out", required=True)
    ap.add_argument("--job", type=int, default=0)
    ap.add_argument("--corpus", default="empty")
    ap.add_argument("--seconds", type=int, default=60)
    ap.add_argument("--seed", type=int, default=1)
    ap.add_argument("--runs", type=int, default=-1)
    ap.add_argument("--kind", default="all", help="all | bulk | search | scroll | paginated | composite | parse: which case strategy the buffer is decoded with")
    args = ap.parse_args()

    sys.path.insert(0, ROOT)
    deps = os.path.join(ROOT, ".deps")
    if os.path.isdir(deps):
        sys.path.append(deps)
    os.environ.setdefault("RALLY_HOME", os.path.join("/tmp", "verif-rally-home"))
    from vlib import core

    core.use_repo(args.repo)
    import atheris

    with atheris.instrument_imports(include=["ijson", "esrally.driver.runner"], enable_loader_override=False):
        import ijson  # noqa: F401
        import ijson.backends.python  # noqa: F401
        import ijson.common  # noqa: F401
        from esrally.driver import runner  # noqa: F401

    import hypothesis
    from hypothesis import HealthCheck, given, settings

    from checks import c19_fastpath_parsing as check

    check._maybe_run_atheris = lambda: None  # never recurse
    check.setup()
    known = core.KnownFindings().known_signatures(check.ID)
    os.makedirs(args.out, exist_ok=True)
    stats_path = os.path.join(args.out, f"job-{args.job}.stats.json")
    st = {
        "job": args.job,
        "corpus": args.corpus,
        "kind": args.kind,
        "seed": args.seed,
        "executions": 0,
        "cases_run": 0,
        "nontrivial": 0,
        "excluded_known": 0,
        "known_hits": 0,
        "oracle_failures": 0,
        "kinds": {},
        "wall_s": 0.0,
    }
    nontrivial = set()
    t0 = time.monotonic()
    last_write = [t0]

    def write_stats(force=False):
        now = time.monotonic()
        if not force and now - last_write[0] < 3.0:
            return
        last_write[0] = now
        st["wall_s"] = round(now - t0, 1)
        st["nontrivial"] = len(nontrivial)
        tmp = stats_path + ".tmp"
        with open(tmp, "w", encoding="utf-8") as f:
            json.dump(st, f)
        os.replace(tmp, stats_path)

    @settings(database=None, deadline=None, suppress_health_check=list(HealthCheck), max_examples=1)
    @given(check.strategy("thorough", known, kind=args.kind))
    def target(case):
        st["cases_run"] += 1
        if check.is_excluded(case, known):
            st["excluded_known"] += 1
            return
        obs = core.execute(check, case)  # HarnessError propagates: libFuzzer stops and the parent reports the job as failed
        st["kinds"][case["kind"]] = st["kinds"].get(case["kind"], 0) + 1
        if obs.nontrivial:
            nontrivial.add(core.case_hash(case))
        for sig, msg in obs.violations:
            if core.signature_matches(sig, known):
                st["known_hits"] += 1
                continue
            st["oracle_failures"] += 1
            name = "case-" + core.case_hash({"s": sig, "c": case}) + ".json"
            if len([n for n in os.listdir(args.out) if n.startswith("case-")]) < 20:
                with open(os.path.join(args.out, name), "w", encoding="utf-8") as f:
                    json.dump({"property": check.ID, "signature": sig, "message": msg, "case": core.jsonable(case), "origin": f"atheris job {args.job}"}, f)

    fuzz = target.hypothesis.fuzz_one_input

    def one_input(data):
        st["executions"] += 1
        try:
            fuzz(data)
        finally:
            write_stats()

    corpus_dir = os.path.join(args.out, f"corpus-{args.job}")  # removed by the parent (Fuzz() exits the process without clean-up)
    os.makedirs(corpus_dir, exist_ok=True)
    if args.corpus == "literals":
        for k, raw in enumerate(literal_responses(args.repo)):
            with open(os.path.join(corpus_dir, f"literal-{k:03d}"), "wb") as f:
                f.write(raw[:4096])
    argv = [
        sys.argv[0],
        corpus_dir,
        f"-max_total_time={args.seconds}",
        f"-seed={args.seed}",
        "-max_len=4096",
        "-timeout=120",
        "-rss_limit_mb=4096",
        "-print_final_stats=1",
        "-verbosity=0",
        f"-artifact_prefix={corpus_dir}/",
    ]
    if args.runs >= 0:
        argv.append(f"-runs={args.runs}")
    write_stats(force=True)
    import atexit

    atexit.register(lambda: write_stats(force=True))  # best effort: libFuzzer usually leaves through _exit
    atheris.Setup(argv, one_input)
    atheris.Fuzz()


if __name__ == "__main__":
    main()
