"""
E3: loopback HTTP server that plays a *fault script* per registered key.

    srv = FaultServer(); srv.start()
    srv.register("k17", {"docs.json.bz2": b"..."}, [["short", 300], ["status", 503], ["ok"]])
    url = srv.base_url("k17")              # http://127.0.0.1:<port>/k17
    ... client GETs <url>/docs.json.bz2 ...
    srv.log("k17")                         # what was played: [["short", 300], ...]
    srv.unregister("k17"); srv.stop()

One scripted outcome is consumed per request *received* (also requests re-sent by urllib3's own connection-level retries).
When the script is exhausted every further request is answered with status 500 and logged as ["exhausted"].

Outcomes (JSON lists; `f` is a position in 1/1024 of the body length, always strictly inside the body):

    ["ok"]                 200, Content-Length, full body
    ["ok-chunked"]         200, Transfer-Encoding: chunked, full body in chunks of 7..4096 bytes
    ["ok-206"]             206 with Content-Range covering the whole body, Content-Length, full body
    ["status", code]       4xx/5xx with a small text body
    ["short", f]           200, full Content-Length, only the first len*f//1024 bytes, then the connection is closed
    ["reset"]              connection closed before any response byte
    ["cut-chunked", f]     chunked body cut in the middle of a chunk at that position (no terminating chunk)
    ["stall", f]           200, full Content-Length, first bytes, then nothing until the client gives up (needs a small read timeout)
    ["corrupt"]            200, right length, a few bytes in the middle of the body inverted
    ["garbage", n_lines]   200, consistent Content-Length, an HTML-like text of n_lines lines instead of the file

Every response carries `Connection: close` (no keep-alive), and - soundness guard of C14 - a body is always delimited by
Content-Length or chunked encoding, never by closing the connection.
"""
from __future__ import annotations

import http.server
import select
import socket
import threading

GARBAGE_LINE = b"<html><body>captive portal - please log in</body></html>\n"


def cut(length, f):
    """byte position for fraction f/1024, strictly inside a non-empty body"""
    if length <= 0:
        return 0
    return min(length - 1, (length * f) // 1024)


def corrupt(body):
    """same length, four bytes in the middle inverted"""
    if not body:
        return body
    b = bytearray(body)
    mid = len(b) // 2
    for i in range(mid, min(len(b), mid + 4)):
        b[i] ^= 0xFF
    return bytes(b)


def garbage(n_lines):
    return GARBAGE_LINE * max(1, n_lines)


class _Entry:
    __slots__ = ("bodies", "script", "pos", "log")

    def __init__(self, bodies, script):
        self.bodies = dict(bodies)
        self.script = [list(o) for o in script]
        self.pos = 0
        self.log = []


class _Handler(http.server.BaseHTTPRequestHandler):
    protocol_version = "HTTP/1.1"
    server_version = "faultlab"
    sys_version = ""

    def log_message(self, format, *args):  # noqa: A002  pylint: disable=redefined-builtin
        pass

    def _head(self, status, headers):
        self.send_response_only(status)
        for k, v in headers:
            self.send_header(k, v)
        self.send_header("Connection", "close")
        self.end_headers()
        self.close_connection = True

    def _abort(self):
        # close without lingering so that the client sees the end of the stream immediately
        self.close_connection = True
        try:
            self.wfile.flush()
        except OSError:
            pass
        try:
            self.connection.shutdown(socket.SHUT_RDWR)
        except OSError:
            pass

    def do_GET(self):  # noqa: N802
        try:
            self._play()
        except (BrokenPipeError, ConnectionResetError, ConnectionAbortedError, TimeoutError):
            self.close_connection = True

    def _play(self):
        parts = self.path.split("?", 1)[0].strip("/").split("/")
        key, name = (parts[0], "/".join(parts[1:])) if len(parts) >= 2 else (None, None)
        fs = self.server.fault_state
        with fs.lock:
            entry = fs.entries.get(key)
            if entry is None:
                outcome = ["status", 404]
            elif name not in entry.bodies:
                outcome = ["status", 404]
                entry.log.append(["unknown-file", name])
            elif entry.pos >= len(entry.script):
                outcome = ["status", 500]
                entry.log.append(["exhausted"])
            else:
                outcome = entry.script[entry.pos]
                entry.pos += 1
                entry.log.append(list(outcome))
            body = entry.bodies.get(name, b"") if entry is not None else b""
        kind = outcome[0]
        n = len(body)
        if kind == "ok":
            self._head(200, [("Content-Type", "application/octet-stream"), ("Content-Length", str(n))])
            self.wfile.write(body)
        elif kind == "ok-206":
            self._head(206, [("Content-Range", f"bytes 0-{max(n - 1, 0)}/{n}"), ("Content-Length", str(n))])
            self.wfile.write(body)
        elif kind == "ok-chunked":
            self._head(200, [("Transfer-Encoding", "chunked")])
            self._chunks(body, n)
            self.wfile.write(b"0\r\n\r\n")
        elif kind == "cut-chunked":
            self._head(200, [("Transfer-Encoding", "chunked")])
            self._chunks(body, cut(n, outcome[1]), torn=True)
            self._abort()
        elif kind == "status":
            msg = b"error\n"
            self._head(int(outcome[1]), [("Content-Type", "text/plain"), ("Content-Length", str(len(msg)))])
            self.wfile.write(msg)
        elif kind == "short":
            self._head(200, [("Content-Length", str(n))])
            self.wfile.write(body[: cut(n, outcome[1])])
            self._abort()
        elif kind == "reset":
            self._abort()
        elif kind == "stall":
            self._head(200, [("Content-Length", str(n))])
            self.wfile.write(body[: cut(n, outcome[1])])
            self.wfile.flush()
            # wait until the client hangs up (bounded)
            for _ in range(200):
                r, _, _ = select.select([self.connection], [], [], 0.05)
                if r:
                    try:
                        if not self.connection.recv(4096):
                            break
                    except OSError:
                        break
            self._abort()
        elif kind == "corrupt":
            self._head(200, [("Content-Length", str(n))])
            self.wfile.write(corrupt(body))
        elif kind == "garbage":
            g = garbage(int(outcome[1]))
            self._head(200, [("Content-Type", "text/html"), ("Content-Length", str(len(g)))])
            self.wfile.write(g)
        else:
            raise ValueError(f"unknown outcome {outcome!r}")

    def _chunks(self, body, upto, torn=False):
        """chunked transfer of body[:upto]; with torn=True the last chunk announces more bytes than are sent"""
        pos = 0
        size = 7
        while pos < upto:
            chunk = body[pos : pos + size]
            if pos + len(chunk) > upto or (torn and pos + len(chunk) >= upto):
                # announce the full chunk, send only a part of it
                sent = body[pos:upto]
                self.wfile.write(b"%x\r\n" % (len(sent) + 5) + sent)
                return
            self.wfile.write(b"%x\r\n" % len(chunk) + chunk + b"\r\n")
            pos += len(chunk)
            size = min(4096, size * 3)
        if torn:
            self.wfile.write(b"5\r\n")


class _State:
    def __init__(self):
        self.lock = threading.Lock()
        self.entries = {}


class _Server(http.server.ThreadingHTTPServer):
    daemon_threads = True
    allow_reuse_address = True
    request_queue_size = 64

    def handle_error(self, request, client_address):
        pass


class FaultServer:
    def __init__(self):
        self._srv = None
        self._thread = None
        self.port = None

    def start(self):
        self._srv = _Server(("127.0.0.1", 0), _Handler)
        self._srv.fault_state = _State()
        self.port = self._srv.server_address[1]
        self._thread = threading.Thread(target=self._srv.serve_forever, kwargs={"poll_interval": 0.05}, name="faultlab-http", daemon=True)
        self._thread.start()
        return self

    def stop(self):
        if self._srv is not None:
            self._srv.shutdown()
            self._thread.join(timeout=10)
            self._srv.server_close()
            self._srv = None
            self._thread = None

    def base_url(self, key):
        return f"http://127.0.0.1:{self.port}/{key}"

    def register(self, key, bodies, script):
        st = self._srv.fault_state
        with st.lock:
            st.entries[key] = _Entry(bodies, script)

    def unregister(self, key):
        st = self._srv.fault_state
        with st.lock:
            st.entries.pop(key, None)

    def log(self, key):
        st = self._srv.fault_state
        with st.lock:
            e = st.entries.get(key)
            return [list(o) for o in e.log] if e else []

    def remaining(self, key):
        st = self._srv.fault_state
        with st.lock:
            e = st.entries.get(key)
            return len(e.script) - e.pos if e else 0
